"""
C15 - graph queries agree with graph theory.

Bounded-exhaustive input enumeration (DESIGN 3.4 / section C15):

part G  every labelled simple graph on 1..5 atoms (quick) / 1..6 atoms (thorough) is built as real
        molli objects (Connectivity in two bond-list layouts, Structure, Molecule,
        ConformerEnsemble) and asked everything the property names:
          yield_bfsd / yield_bfs from every atom, and from every atom through every neighbour,
          is_bond_in_ring for every bond,
          connected_atoms / bonds_with_atom / bonded_valence / n_bonds_with_atom for every atom.
        Reference: a 10-line BFS over the adjacency read from the object's own bond list, a bridge
        finder by edge deletion, sums over the bond list.

part M  substructure matching (Connectivity.match, Connectivity.get_substr_indices,
        ConformerEnsemble.get_substr_indices): targets on <= 5 atoms with elements {C, N}, connected
        patterns on <= 3 (thorough <= 4) atoms with elements {C, N, Unknown}, the same bond type
        on every bond of both sides.  Reference: brute force over all injective maps with the
        element and the induced-subgraph condition.  Compared as SETS of embeddings
        (pattern atom i -> target atom f(i)); molli yields one dict per embedding,
        automorphic images are distinct embeddings on both sides.

networkx is what the code under test runs on, so it is not used here.
"""
from __future__ import annotations

import itertools
import os
from collections import deque

from mc.core import HarnessError
from mc.props.c15_agg import Agg, run_forked

from molli.chem import Atom, Bond, BondType, Connectivity, Element
from molli.chem import ConformerEnsemble, Molecule, Structure

LEVEL = "model_checking"

CLASSES = {
    "Connectivity": Connectivity,
    "Structure": Structure,
    "Molecule": Molecule,
    "ConformerEnsemble": ConformerEnsemble,
}
BT = {m.name: m for m in BondType}  # a bond type is written "Name" or "Name:f_order" (e.g. "FractionalOrder:0.5")
BT_CYCLE = ["Single", "Double", "Triple", "Aromatic"]
EL = {"C": Element.C, "N": Element.N, "X": Element.Unknown, "H": Element.H, "F": Element.F, "Cl": Element.Cl, "Br": Element.Br, "I": Element.I, "B": Element.B, "Li": Element.Li}
SPECIAL_ELEMENTS = ("H", "Cl", "X", "F", "Br", "I")  # monovalent elements and the Unknown placeholder: chemistry must not leak into graph theory
F_ORDERS = (0.25, 0.5, 1.5, 2.5)


def bond_kwargs(bt):
    name, _, fo = (bt or "Single").partition(":")
    return {"btype": BT[name], **({"f_order": float(fo)} if fo else {})}


def bond_src(bt):
    name, _, fo = (bt or "Single").partition(":")
    return f"btype=BondType.{name}" + (f", f_order={float(fo)}" if fo else "")
# get_substr_indices returns what match yields, re-indexed: the same symptom on both is one finding (reported on match)
# how molli builds the graph queries on one another (bond.py): a broken lower layer shows in everything above it
_TRAV = ("connected_atoms", "bonds_with_atom")
DEPENDS = {
    "connected_atoms": ("bonds_with_atom",),
    "bonded_valence": ("bonds_with_atom",),
    "n_bonds_with_atom": _TRAV,
    "yield_bfs": _TRAV,
    "yield_bfsd": _TRAV,
    "yield_bfs(direction)": _TRAV,
    "yield_bfsd(direction)": _TRAV,
    "is_bond_in_ring": ("yield_bfs(direction)",) + _TRAV,
}
CONSEQUENTIAL = (("get_substr_indices", "match"), ("ConformerEnsemble.get_substr_indices", "match"))


# =================================================================================================
# small-graph combinatorics (own code, no networkx)
# =================================================================================================
_PAIRS: dict = {}


def pairs(n):
    if n not in _PAIRS:
        _PAIRS[n] = [(i, j) for i in range(n) for j in range(i + 1, n)]
    return _PAIRS[n]


def edges_of(n, mask):
    return [p for k, p in enumerate(pairs(n)) if mask >> k & 1]


def mask_of(n, edges):
    pk = {p: k for k, p in enumerate(pairs(n))}
    m = 0
    for i, j in edges:
        m |= 1 << pk[(min(i, j), max(i, j))]
    return m


def adjacency(n, edges):
    adj = [set() for _ in range(n)]
    for i, j in edges:
        adj[i].add(j)
        adj[j].add(i)
    return adj


def bfs_dist(adj, s, banned=None):
    """true shortest-path distances from s (optionally never entering `banned`)"""
    dist = {s: 0}
    q = deque([s])
    while q:
        u = q.popleft()
        for v in sorted(adj[u]):
            if v not in dist and v != banned:
                dist[v] = dist[u] + 1
                q.append(v)
    return dist


def is_bridge(n, edges, e):
    rest = [x for x in edges if set(x) != set(e)]
    return e[1] not in bfs_dist(adjacency(n, rest), e[0])


def is_connected(n, edges):
    return len(bfs_dist(adjacency(n, edges), 0)) == n


def has_cycle_in_component(adj, comp):
    ne = sum(len(adj[v]) for v in comp) // 2
    return ne >= len(comp)


def perm_for_seed(n, seed):
    """seed -> a vertex relabelling (seed 0 = identity); only chooses the representative"""
    if n <= 1:
        return tuple(range(n))
    r = seed % n
    p = list(range(n))
    p = p[r:] + p[:r]
    if (seed // n) % 2:
        p.reverse()
    return tuple(p)


def relabel(n, edges, cols, perm):
    """vertex i becomes perm[i]"""
    e2 = [(min(perm[i], perm[j]), max(perm[i], perm[j])) for i, j in edges]
    c2 = [None] * n
    for i in range(n):
        c2[perm[i]] = cols[i]
    return sorted(e2), tuple(c2)


def coloured_graphs(n, colours, connected_only=False):
    """all labelled coloured graphs on n vertices: (n, mask, cols)"""
    out = []
    for mask in range(1 << len(pairs(n))):
        if connected_only and not is_connected(n, edges_of(n, mask)):
            continue
        for cols in itertools.product(colours, repeat=n):
            out.append((n, mask, cols))
    return out


def canonical_reps(n, colours, connected_only=False):
    """one representative (the smallest labelled one) of every isomorphism class of coloured graphs"""
    seen = set()
    reps = []
    perms = list(itertools.permutations(range(n)))
    for g in coloured_graphs(n, colours, connected_only):
        _, mask, cols = g
        if (mask, cols) in seen:
            continue
        reps.append(g)
        ed = edges_of(n, mask)
        for p in perms:
            e2, c2 = relabel(n, ed, cols, p)
            seen.add((mask_of(n, e2), c2))
    return reps


def embeddings(tn, tadj, tcols, pn, padj, pcols):
    """brute force: injective maps respecting elements (X = Unknown matches any), bonded -> bonded,
    non-bonded -> non-bonded"""
    out = set()
    for f in itertools.permutations(range(tn), pn):
        ok = True
        for i in range(pn):
            if pcols[i] != "X" and pcols[i] != tcols[f[i]]:
                ok = False
                break
        if not ok:
            continue
        for i in range(pn):
            for j in range(i + 1, pn):
                if (j in padj[i]) != (f[j] in tadj[f[i]]):
                    ok = False
                    break
            if not ok:
                break
        if ok:
            out.add(f)
    return out


def classify_invalid(f, tn, tadj, tcols, pn, padj, pcols):
    if not isinstance(f, tuple) or len(f) != pn or any((not isinstance(x, int)) or x < 0 or x >= tn for x in f):
        return "malformed-mapping"
    if len(set(f)) != pn:
        return "not-injective"
    for i in range(pn):
        if pcols[i] != "X" and pcols[i] != tcols[f[i]]:
            return "element-mismatch"
    for i in range(pn):
        for j in range(i + 1, pn):
            if (j in padj[i]) and not (f[j] in tadj[f[i]]):
                return "bonded-mapped-to-nonbonded"
    for i in range(pn):
        for j in range(i + 1, pn):
            if (j not in padj[i]) and (f[j] in tadj[f[i]]):
                return "nonbonded-mapped-to-bonded"
    return "valid?"


# =================================================================================================
# building real molli objects
# =================================================================================================
def build(cls_name, n, bond_list, cols=None, btypes=None):
    """bond_list: [(i, j)] in the order and orientation in which Bond(a_i, a_j) is appended"""
    atoms = [Atom(EL[cols[i]] if cols else Element.C, label=f"a{i}") for i in range(n)]
    c = Connectivity()
    for a in atoms:
        c.append_atom(a)
    for k, (i, j) in enumerate(bond_list):
        c.append_bond(Bond(atoms[i], atoms[j], **bond_kwargs(btypes[k] if btypes else None)))
    if cls_name == "Connectivity":
        obj = c
    elif cls_name == "Structure":
        obj = Structure(c)
    elif cls_name == "Molecule":
        obj = Molecule(c)
    elif cls_name == "ConformerEnsemble":
        obj = ConformerEnsemble(Molecule(c), n_conformers=2)
    else:  # pragma: no cover
        raise HarnessError(cls_name)
    # the object's own bond list is the reference ("agree with the bond list"); it must be the
    # graph that was asked for, otherwise the construction (not a C15 matter) is broken
    oatoms = list(obj.atoms)
    pos = {id(a): i for i, a in enumerate(oatoms)}
    if len(oatoms) != n:
        raise HarnessError(f"{cls_name} construction: {len(oatoms)} atoms instead of {n}")
    got = []
    for b in obj.bonds:
        if id(b.a1) not in pos or id(b.a2) not in pos:
            raise HarnessError(f"{cls_name} construction: a bond refers to an atom outside the atom list")
        got.append((pos[id(b.a1)], pos[id(b.a2)]))
    if got != [tuple(x) for x in bond_list]:
        raise HarnessError(f"{cls_name} construction: bond list {got} instead of {bond_list}")
    return obj


def repro_build(cls_name, n, bond_list, cols=None, btypes=None):
    els = [("Element.Unknown" if c == "X" else f"Element.{c}") for c in (cols or ["C"] * n)]
    s = [
        "from molli.chem import Atom, Bond, BondType, Connectivity, Element, Structure, Molecule, ConformerEnsemble",
        f"atoms = [Atom(e, label=f'a{{i}}') for i, e in enumerate([{', '.join(els)}])]",
        "g = Connectivity()",
        "for a in atoms: g.append_atom(a)",
    ]
    for k, (i, j) in enumerate(bond_list):
        s.append(f"g.append_bond(Bond(atoms[{i}], atoms[{j}], {bond_src(btypes[k] if btypes else None)}))")
    if cls_name == "Structure":
        s.append("g = Structure(g)")
    elif cls_name == "Molecule":
        s.append("g = Molecule(g)")
    elif cls_name == "ConformerEnsemble":
        s.append("g = ConformerEnsemble(Molecule(g), n_conformers=2)")
    return s


# =================================================================================================
# part G : traversal, ring membership, adjacency
# =================================================================================================
def variants(n, mask, seed, thorough):
    """(class, bond_list, btypes, start forms) - layouts of one and the same labelled graph"""
    ed = edges_of(n, mask)
    m = len(ed)
    out = [("Connectivity", ed, [BT_CYCLE[(k + seed + 2) % 4] for k in range(m)], ("atom", "index", "label"))]
    # reversed orientation, bond list reversed and rotated, mixed bond types
    r = (seed % m) if m else 0
    rev = [(j, i) for i, j in reversed(ed)]
    rev = rev[r:] + rev[:r]
    bts = [BT_CYCLE[(k + seed) % 4] for k in range(m)]
    out.append(("Connectivity", rev, bts, ("atom",)))
    # alternating orientation, rotated order
    r2 = ((seed + 1) % m) if m else 0
    alt = [((i, j) if (k + seed) % 2 else (j, i)) for k, (i, j) in enumerate(ed)]
    alt = alt[r2:] + alt[:r2]
    bts2 = [BT_CYCLE[(k + seed + 1) % 4] for k in range(m)]
    out.append(("ConformerEnsemble", alt, bts2, ("atom",)))
    out.append(("Molecule", alt, bts2, ("atom",)))
    out.append(("Structure", rev, bts, ("atom",)))
    return out


def graph_class(adj, comp):
    return "cyclic" if has_cycle_in_component(adj, comp) else "acyclic"


def check_graph(ctx, agg, cls_name, n, bond_list, btypes, forms, obj=None, sfx="", hist=None, cols=None, bonds_class="common"):
    """all queries of part G on one molli object; returns the observation digest.
    obj/sfx/hist: history dimension - the queries run on an EXISTING object after an in-place edit; n and bond_list
    are then the object's current state and every operation name carries the suffix `:history[<edit>]`"""
    if obj is None:
        obj = build(cls_name, n, bond_list, cols, btypes)
    labels = "H/halogen/Unknown-atoms" if cols and not set(cols) <= {"C"} else ("plain" if bonds_class == "common" else bonds_class)
    common = {"class": cls_name, "labels": labels}
    atoms = list(obj.atoms)
    bonds = list(obj.bonds)
    pos = {id(a): i for i, a in enumerate(atoms)}
    edges = [(min(i, j), max(i, j)) for i, j in bond_list]
    adj = adjacency(n, edges)
    ncalls = 0
    obs = []

    def viol(op, attrs, symptom, what, query):
        op = op + sfx
        if hist is None:
            case = {"kind": "graph", "op": op, "symptom": symptom, "cls": cls_name, "n": n, "bond_list": [list(x) for x in bond_list], "btypes": btypes, "forms": list(forms), "query": query, "cols": list(cols) if cols else None, "bonds_class": bonds_class}
            rep = repro_build(cls_name, n, bond_list, cols, btypes) + [f"print({query})"]
            agg.fail(op, symptom, attrs, f"{what} [{cls_name}, {n} atoms{' ' + '-'.join(cols) if cols else ''}, bonds {bond_list}{' types ' + str(btypes) if bonds_class != 'common' else ''}]", case, "\n".join(rep))
        else:
            case = dict(hist["case"], op=op, symptom=symptom, query=query)
            rep = hist["repro"] + [f"print({query})"]
            agg.fail(op, symptom, attrs, f"{what} [{cls_name}, after {hist['what']}; now {n} atoms, bonds {bond_list}]", case, "\n".join(rep))

    def arg(i, form):
        return atoms[i] if form == "atom" else (i if form == "index" else f"a{i}")

    def idx_of(a):
        return pos.get(id(a), None)

    for s in range(n):
        dist = bfs_dist(adj, s)
        comp = set(dist)
        expected = comp - {s}
        for form in forms:
            gcls = dict(common, component=graph_class(adj, comp), start=form)
            acls = dict(common, atom=form)
            for _op in ("yield_bfsd", "yield_bfs"):
                agg.tick(_op + sfx, gcls)
            if adj[s]:
                for _op in ("yield_bfsd(direction)", "yield_bfs(direction)"):
                    agg.tick(_op + sfx, gcls)
            for _op in ("connected_atoms", "bonds_with_atom", "bonded_valence", "n_bonds_with_atom"):
                agg.tick(_op + sfx, acls)
            # ---- yield_bfsd(start) ------------------------------------------------------------
            q = f"[(g.atoms.index(a), d) for a, d in g.yield_bfsd({arg(s, form)!r})]" if form != "atom" else f"[(g.atoms.index(a), d) for a, d in g.yield_bfsd(g.atoms[{s}])]"
            ncalls += 1
            try:
                got = [(idx_of(a), d) for a, d in list(obj.yield_bfsd(arg(s, form)))]  # consumed first, converted afterwards
            except Exception as e:
                viol("yield_bfsd", gcls, f"raised-{type(e).__name__}", f"yield_bfsd(start={s}) raised {type(e).__name__}: {e}", q)
                got = None
            if got is not None:
                obs.append(("bfsd", s, tuple(got)))
                _check_traversal(viol, "yield_bfsd", gcls, s, [g for g, _ in got], [d for _, d in got], expected, dist, q)
            # ---- yield_bfs(start) -------------------------------------------------------------
            q = q.replace("[(g.atoms.index(a), d) for a, d in g.yield_bfsd", "[g.atoms.index(a) for a in g.yield_bfs")
            ncalls += 1
            try:
                got = [idx_of(a) for a in list(obj.yield_bfs(arg(s, form)))]
            except Exception as e:
                viol("yield_bfs", gcls, f"raised-{type(e).__name__}", f"yield_bfs(start={s}) raised {type(e).__name__}: {e}", q)
                got = None
            if got is not None:
                obs.append(("bfs", s, tuple(got)))
                _check_traversal(viol, "yield_bfs", gcls, s, got, None, expected, dist, q)
            # ---- directional ------------------------------------------------------------------
            for d in sorted(adj[s]):
                reach = bfs_dist(adj, d, banned=s)  # distances from the direction atom in G - start
                exp_dir = set(reach)
                qd = f"[(g.atoms.index(a), d) for a, d in g.yield_bfsd(g.atoms[{s}], g.atoms[{d}])]"
                ncalls += 1
                try:
                    got = [(idx_of(a), dd) for a, dd in list(obj.yield_bfsd(arg(s, form), arg(d, form)))]
                except Exception as e:
                    viol("yield_bfsd(direction)", gcls, f"raised-{type(e).__name__}", f"yield_bfsd(start={s}, direction={d}) raised {type(e).__name__}: {e}", qd)
                    got = None
                if got is not None:
                    obs.append(("bfsd-dir", s, d, tuple(got)))
                    _check_directional(viol, "yield_bfsd(direction)", gcls, s, d, [g for g, _ in got], [x for _, x in got], exp_dir, reach, dist, qd)
                qd = f"[g.atoms.index(a) for a in g.yield_bfs(g.atoms[{s}], g.atoms[{d}])]"
                ncalls += 1
                try:
                    got = [idx_of(a) for a in list(obj.yield_bfs(arg(s, form), arg(d, form)))]
                except Exception as e:
                    viol("yield_bfs(direction)", gcls, f"raised-{type(e).__name__}", f"yield_bfs(start={s}, direction={d}) raised {type(e).__name__}: {e}", qd)
                    got = None
                if got is not None:
                    obs.append(("bfs-dir", s, d, tuple(got)))
                    _check_directional(viol, "yield_bfs(direction)", gcls, s, d, got, None, exp_dir, reach, dist, qd)

            # ---- adjacency queries ------------------------------------------------------------
            ref_bonds = [b for b in bonds if b.a1 is atoms[s] or b.a2 is atoms[s]]
            ref_nb = sorted(pos[id(b.a2)] if b.a1 is atoms[s] else pos[id(b.a1)] for b in ref_bonds)
            ref_val = 0.0
            for b in ref_bonds:
                ref_val += b.order
            a_repr = f"g.atoms[{s}]" if form == "atom" else repr(arg(s, form))
            ncalls += 4
            try:
                got = sorted(idx_of(a) if idx_of(a) is not None else -1 for a in list(obj.connected_atoms(arg(s, form))))
                if got != ref_nb:
                    viol("connected_atoms", acls, "differs-from-bond-list", f"connected_atoms({s}) = {got}, bond list says {ref_nb}", f"[g.atoms.index(a) for a in g.connected_atoms({a_repr})]")
                obs.append(("nb", s, tuple(got)))
            except Exception as e:
                viol("connected_atoms", acls, f"raised-{type(e).__name__}", f"connected_atoms({s}) raised {type(e).__name__}: {e}", f"list(g.connected_atoms({a_repr}))")
            try:
                gotb = list(obj.bonds_with_atom(arg(s, form)))
                if sorted(id(b) for b in gotb) != sorted(id(b) for b in ref_bonds):
                    viol("bonds_with_atom", acls, "differs-from-bond-list", f"bonds_with_atom({s}) returned {len(gotb)} bonds, the bond list holds {len(ref_bonds)} with that atom (or other bonds were returned)", f"list(g.bonds_with_atom({a_repr}))")
            except Exception as e:
                viol("bonds_with_atom", acls, f"raised-{type(e).__name__}", f"bonds_with_atom({s}) raised {type(e).__name__}: {e}", f"list(g.bonds_with_atom({a_repr}))")
            try:
                v = obj.bonded_valence(arg(s, form))
                if not (isinstance(v, (int, float)) and float(v) == ref_val):
                    viol("bonded_valence", acls, "differs-from-bond-list", f"bonded_valence({s}) = {v!r}, sum of the orders of its bonds in the bond list = {ref_val!r}", f"g.bonded_valence({a_repr})")
                obs.append(("val", s, v))
            except Exception as e:
                viol("bonded_valence", acls, f"raised-{type(e).__name__}", f"bonded_valence({s}) raised {type(e).__name__}: {e}", f"g.bonded_valence({a_repr})")
            try:
                k = obj.n_bonds_with_atom(arg(s, form))
                if k != len(ref_bonds):
                    viol("n_bonds_with_atom", acls, "differs-from-bond-list", f"n_bonds_with_atom({s}) = {k!r}, the bond list holds {len(ref_bonds)}", f"g.n_bonds_with_atom({a_repr})")
            except Exception as e:
                viol("n_bonds_with_atom", acls, f"raised-{type(e).__name__}", f"n_bonds_with_atom({s}) raised {type(e).__name__}: {e}", f"g.n_bonds_with_atom({a_repr})")

    # ---- ring membership ----------------------------------------------------------------------
    rcls = dict(common)
    for k, b in enumerate(bonds):
        i, j = bond_list[k]
        bridge = is_bridge(n, edges, (i, j))
        agg.tick("is_bond_in_ring" + sfx, rcls)
        q = f"g.is_bond_in_ring(g.bonds[{k}])"
        ncalls += 1
        try:
            r = obj.is_bond_in_ring(b)
        except Exception as e:
            viol("is_bond_in_ring", rcls, f"raised-{type(e).__name__}", f"is_bond_in_ring(bond {i}-{j}) raised {type(e).__name__}: {e}", q)
            continue
        obs.append(("ring", i, j, bool(r)))
        if bool(r) != (not bridge):
            sym = "bridge-reported-in-ring" if bridge else "ring-bond-reported-not-in-ring"
            viol("is_bond_in_ring", rcls, sym, f"is_bond_in_ring(bond {i}-{j}) = {r!r} but the bond is {'a bridge' if bridge else 'not a bridge'}", q)
    ctx.count(transitions=ncalls)
    return obs


def _check_traversal(viol, op, gcls, s, order, labels, expected, dist, q):
    """non-directional clause: every other atom of the component exactly once, non-decreasing
    distance, true distance labels"""
    if None in order:
        viol(op, gcls, "foreign-atom-yielded", f"{op}({s}) yielded an object that is not an atom of the graph", q)
        return
    if s in order:
        viol(op, gcls, "start-yielded", f"{op}({s}) yielded the start atom itself (order {order})", q)
    outside = set(order) - expected - {s}
    if outside:
        viol(op, gcls, "atom-outside-component", f"{op}({s}) yielded {sorted(outside)} which are not in the component of the start", q)
    missing = expected - set(order)
    if missing:
        viol(op, gcls, "atom-missing", f"{op}({s}) did not yield {sorted(missing)} (component: {sorted(expected)})", q)
    if len(order) != len(set(order)):
        viol(op, gcls, "atom-yielded-twice", f"{op}({s}) yielded {order}", q)
    td = [dist.get(x) for x in order]
    if all(x is not None for x in td) and any(td[k] > td[k + 1] for k in range(len(td) - 1)):
        viol(op, gcls, "order-not-by-distance", f"{op}({s}) order {order} has true distances {td}, not non-decreasing", q)
    if labels is not None:
        bad = [(x, l, dist.get(x)) for x, l in zip(order, labels) if x in dist and l != dist[x]]
        if bad:
            viol(op, gcls, "wrong-distance-label", f"{op}({s}) (atom, yielded, true distance) = {bad}", q)


def _check_directional(viol, op, gcls, s, d, order, labels, exp_dir, reach, dist, q):
    """directional clause: exactly the atoms reachable through the neighbour without passing the
    start.  Distance labels: accepted when they are the distance from the start along paths through
    that neighbour avoiding the start (reach+1) OR the true distance in the whole graph."""
    if None in order:
        viol(op, gcls, "foreign-atom-yielded", f"{op}({s}->{d}) yielded an object that is not an atom of the graph", q)
        return
    extra = set(order) - exp_dir
    if extra:
        sym = "start-yielded" if extra == {s} else "unreachable-atom-yielded"
        viol(op, gcls, sym, f"{op}({s}->{d}) yielded {sorted(extra)}; reachable through {d} without passing {s}: {sorted(exp_dir)}", q)
    missing = exp_dir - set(order)
    if missing:
        viol(op, gcls, "atom-missing", f"{op}({s}->{d}) did not yield {sorted(missing)}; reachable through {d} without passing {s}: {sorted(exp_dir)}", q)
    if len(order) != len(set(order)):
        viol(op, gcls, "atom-yielded-twice", f"{op}({s}->{d}) yielded {order}", q)
    if not extra and len(order) == len(set(order)):
        # breadth-first: non-decreasing distance, under either reading of 'distance' in the directional clause
        ra = [reach[x] for x in order]
        rb = [dist[x] for x in order]
        if any(ra[k] > ra[k + 1] for k in range(len(ra) - 1)) and any(rb[k] > rb[k + 1] for k in range(len(rb) - 1)):
            viol(op, gcls, "order-not-by-distance", f"{op}({s}->{d}) order {order}: distances through {d} avoiding {s} are {[x + 1 for x in ra]}, true distances {rb}; neither is non-decreasing", q)
    if labels is not None and not extra:
        a_ok = all(l == reach[x] + 1 for x, l in zip(order, labels))
        b_ok = all(l == dist[x] for x, l in zip(order, labels))
        if not (a_ok or b_ok):
            viol(op, gcls, "wrong-distance-label", f"{op}({s}->{d}) yielded {list(zip(order, labels))}: neither the distances along paths through {d} avoiding {s} nor the true distances", q)


def deep_shapes():
    """graphs on 6..10 atoms on which a depth-first or otherwise mis-ordered traversal differs from breadth-first:
    rings of 6 and 7, two- and three-armed trees of depth 3, a ring with tails, two fused rings"""
    ring = lambda n, o=0: [(o + i, o + (i + 1) % n) for i in range(n)]
    return [
        ("ring6", 6, ring(6)),
        ("ring7", 7, ring(7)),
        ("two-arms-depth3", 7, [(0, 1), (1, 2), (2, 3), (0, 4), (4, 5), (5, 6)]),
        ("arms-depth-2-and-3", 6, [(0, 1), (1, 2), (0, 3), (3, 4), (4, 5)]),
        ("three-arms", 9, [(0, 1), (1, 2), (2, 3), (0, 4), (4, 5), (5, 6), (0, 7), (7, 8)]),
        ("ring6-with-tails", 9, ring(6) + [(0, 6), (6, 7), (3, 8)]),
        ("fused-rings", 10, ring(6) + [(0, 6), (6, 7), (7, 8), (8, 9), (9, 1)]),
        ("path7", 7, [(i, i + 1) for i in range(6)]),
    ]


def run_deep_part(ctx, agg, part):
    seed = ctx.seed
    for name, n, ed in deep_shapes():
        for perm_kind in range(3):
            # three labellings: as written, reversed, rotated by the seed
            if perm_kind == 0:
                perm = list(range(n))
            elif perm_kind == 1:
                perm = list(reversed(range(n)))
            else:
                r = 1 + seed % (n - 1)
                perm = [(i + r) % n for i in range(n)]
            e2 = sorted((min(perm[i], perm[j]), max(perm[i], perm[j])) for i, j in ed)
            mask = mask_of(n, e2)
            for cls_name, bl, bts, forms in variants(n, mask, seed, ctx.thorough):
                check_graph(ctx, agg, cls_name, n, bl, bts, ("atom",))
                ctx.count(evaluations=1, traces=1)
            ctx.count(states=1)
            ctx.nontrivial(("deep", name, perm_kind))


def element_assignments(n, seed, thorough):
    """element labellings that put monovalent elements / Unknown on nodes of every position (interior ones included)"""
    out = []
    for E in SPECIAL_ELEMENTS:
        full = E in ("H", "Cl", "X") and n <= 4
        for sub in range(1, 1 << n):
            k = bin(sub).count("1")
            if full or k == 1 or k == n:
                out.append(tuple(E if sub >> i & 1 else "C" for i in range(n)))
    # mixed: hydrides / halides bridging other elements
    if n >= 3:
        out.append(tuple(("B", "H", "B", "H", "Li", "Cl")[(i + seed) % 6] for i in range(n)))
        out.append(tuple(("F", "H", "Cl", "X", "I", "Br")[(i + seed) % 6] for i in range(n)))
    return out


def run_elements_part(ctx, agg, part):
    """graph theory must not depend on the element labels: every graph x element assignments (Connectivity, plus the ensemble on a rotation)"""
    n, lo, hi = part["n"], part["lo"], part["hi"]
    for mask in range(lo, hi):
        ed = edges_of(n, mask)
        if not ed:
            continue
        for k, cols in enumerate(element_assignments(n, ctx.seed, ctx.thorough)):
            cls_name = ("Connectivity", "ConformerEnsemble", "Connectivity", "Molecule", "Structure")[(k + mask + ctx.seed) % 5]
            form = ("atom", "index", "atom", "label")[(k + mask) % 4]
            check_graph(ctx, agg, cls_name, n, ed, None, (form,), cols=cols)
            ctx.count(evaluations=1, traces=1, states=1)
        ctx.nontrivial(("el", n, mask))
    if part.get("deep"):
        for name, n2, ed in deep_shapes():
            for E in SPECIAL_ELEMENTS:
                for pos_ in (0, 1, n2 // 2):
                    cols = tuple(E if i == pos_ else "C" for i in range(n2))
                    check_graph(ctx, agg, "Connectivity", n2, ed, None, ("atom",), cols=cols)
                    ctx.count(evaluations=1, traces=1, states=1)
                check_graph(ctx, agg, "Connectivity", n2, ed, None, ("atom",), cols=tuple(E if i % 2 else "C" for i in range(n2)))
                ctx.count(evaluations=1, traces=1, states=1)


BOND_SHAPES = (("path3", 3, [(0, 1), (1, 2)]), ("star4", 4, [(0, 1), (0, 2), (0, 3)]), ("triangle", 3, [(0, 1), (1, 2), (0, 2)]), ("ring4", 4, [(0, 1), (1, 2), (2, 3), (0, 3)]))


def run_bondtypes_part(ctx, agg, part):
    """every BondType member with its data field f_order on the bonds of the queried atom: bonded_valence == sum of Bond.order"""
    kk = 0
    for name, n, ed in BOND_SHAPES:
        for member in BondType:
            for fo in F_ORDERS:
                bt = f"{member.name}:{fo}"
                layouts = [[bt if k == pos_ else BT_CYCLE[(k + ctx.seed) % 4] for k in range(len(ed))] for pos_ in range(len(ed))] + [[bt] * len(ed)]
                for bts in layouts:
                    kk += 1
                    cls_name = ("Connectivity", "Molecule", "ConformerEnsemble", "Structure")[(kk + ctx.seed) % 4]
                    form = ("atom", "index", "label")[kk % 3]
                    check_graph(ctx, agg, cls_name, n, ed, bts, (form,), bonds_class="every-BondType-member-with-f_order")
                    ctx.count(evaluations=1, traces=1, states=1)
        ctx.nontrivial(("bt", name))


def run_graph_part(ctx, agg, part):
    n, lo, hi = part["n"], part["lo"], part["hi"]
    seed = ctx.seed
    for mask in range(lo, hi):
        ed = edges_of(n, mask)
        adj = adjacency(n, ed)
        for cls_name, bl, bts, forms in variants(n, mask, seed, ctx.thorough):
            obs = check_graph(ctx, agg, cls_name, n, bl, bts, forms)
            ctx.count(evaluations=1, traces=1)
        ctx.count(states=1)
        if ed:
            ctx.nontrivial(("g", n, mask))
        nbridge = sum(1 for e in ed if is_bridge(n, ed, e))
        ncomp = len({min(bfs_dist(adj, s)) for s in range(n)})
        ctx.outcome(("g", n, tuple(sorted(len(a) for a in adj)), nbridge, ncomp))


# =================================================================================================
# part M : substructure matching
# =================================================================================================
def _graph_args(g, bt):
    n, mask, cols = g
    ed = edges_of(n, mask)
    return n, ed, cols, [bt] * len(ed)


def _compare_match(ctx, viol, tgt, pat, api, opname, tn, tadj, tcols, pn, padj, pcols, expected):
    """run one entry point on (tgt, pat) and compare the set of embeddings with `expected`"""
    patoms = list(pat.atoms)
    tpos = {id(a): i for i, a in enumerate(tgt.atoms)}
    ctx.count(transitions=1, evaluations=1, traces=1)
    got = []
    try:
        # the way callers use it (scripts/align.py): the generator is exhausted into a list FIRST, the items are looked at afterwards
        items = list(tgt.match(pat)) if api == "match" else list(tgt.get_substr_indices(pat))
    except Exception as e:
        viol(f"raised-{type(e).__name__}", f"{opname} raised {type(e).__name__}: {e}")
        return
    if len({id(x) for x in items}) != len(items):
        viol("yielded-containers-are-one-object-reused", f"list({opname}(...)) holds {len(items)} items but only {len({id(x) for x in items})} distinct objects: {items[:3]!r}"[:400])
        return
    for m in items:
        if api == "match":
            if not isinstance(m, dict) or len(m) != pn or any(not any(k is a for k in m) for a in patoms):
                got.append("malformed")
                continue
            got.append(tuple(tpos.get(id(m[a]), -1) for a in patoms))
        else:
            got.append(tuple(int(x) if isinstance(x, int) else -1 for x in m) if isinstance(m, (list, tuple)) else "malformed")
    gset = set(got)
    for f in sorted(gset - expected, key=repr):
        why = "malformed-mapping" if f == "malformed" else classify_invalid(f, tn, tadj, tcols, pn, padj, pcols)
        viol(f"invalid-embedding:{why}", f"{opname} yielded {f}, which is not an induced embedding ({why}); expected {len(expected)} embeddings")
    missed = expected - gset
    if missed:
        viol("missed-embedding", f"{opname} missed {len(missed)} of {len(expected)} induced embeddings, e.g. {sorted(missed)[0]} (pattern atom i -> target atom)")
    ctx.outcome(("m", tn, pn, len(gset)))


def check_match(ctx, agg, tg, pg, bt, apis):
    """one (target, pattern) pair through the named entry points"""
    tn, ted, tcols, tbts = _graph_args(tg, bt)
    pn, ped, pcols, pbts = _graph_args(pg, bt)
    tadj, padj = adjacency(tn, ted), adjacency(pn, ped)
    expected = embeddings(tn, tadj, tcols, pn, padj, pcols)
    pcls = "with-Unknown" if "X" in pcols else "plain"
    mattrs = {"bonds": bt, "pattern": pcls}
    pat = build("Connectivity", pn, ped, pcols, pbts)
    patoms = list(pat.atoms)

    for api in apis:
        cls_name = {"ens.get_substr_indices": "ConformerEnsemble", "mol.get_substr_indices": "Molecule"}.get(api, "Connectivity")
        tgt = build(cls_name, tn, ted, tcols, tbts)
        tatoms = list(tgt.atoms)
        tpos = {id(a): i for i, a in enumerate(tatoms)}
        opname = OPNAME[api]

        agg.tick(opname, mattrs)

        def viol(symptom, what):
            case = {"kind": "match", "op": opname, "symptom": symptom, "target": [tn, tg[1], list(tcols)], "pattern": [pn, pg[1], list(pcols)], "bt": bt, "api": api}
            rep = repro_build(cls_name, tn, ted, tcols, tbts)
            rep += ["t = g"] + repro_build("Connectivity", pn, ped, pcols, pbts)[1:] + ["p = g"]
            if api == "match":
                rep.append("print([[t.atoms.index(m[a]) for a in p.atoms] for m in t.match(p)])")
            else:
                rep.append("print(list(t.get_substr_indices(p)))")
            agg.fail(opname, symptom, mattrs, f"{what} [target {tn} atoms {''.join(tcols)} bonds {ted}; pattern {''.join(pcols)} bonds {ped}; all bonds {bt}]", case, "\n".join(rep))

        _compare_match(ctx, viol, tgt, pat, api, opname, tn, tadj, tcols, pn, padj, pcols, expected)
    ninj = 1
    for k in range(pn):
        ninj *= max(tn - k, 0)
    return len(expected), ninj


def run_match_part(ctx, agg, part):
    targets, patterns, bt, apis = part["targets"], part["patterns"], part["bt"], part["apis"]
    for tg in targets:
        nt = False
        for pg in patterns:
            ne, ninj = check_match(ctx, agg, tg, pg, bt, apis)
            ctx.count(states=1)
            if 0 < ne < ninj:
                nt = True
        if nt:
            ctx.nontrivial(("m", tg[0], tg[1], "".join(tg[2])))


# =================================================================================================
# part H : history dimension - the same object queried again after an in-place edit
# =================================================================================================
_COL = {Element.C: "C", Element.N: "N", Element.Unknown: "X"}
OPNAME = {"match": "match", "get_substr_indices": "get_substr_indices", "mol.get_substr_indices": "get_substr_indices", "ens.get_substr_indices": "ConformerEnsemble.get_substr_indices"}


def graph_of(obj):
    """(n, bond list by position, element letters) read back from the object by atom identity"""
    atoms = list(obj.atoms)
    pos = {id(a): i for i, a in enumerate(atoms)}
    bl = []
    for b in obj.bonds:
        if id(b.a1) not in pos or id(b.a2) not in pos:
            return None
        bl.append((pos[id(b.a1)], pos[id(b.a2)]))
    if len({frozenset(x) for x in bl}) != len(bl) or any(i == j for i, j in bl):
        return None  # not a simple graph any more: outside the property
    return len(atoms), bl, tuple(_COL.get(a.element, "?") for a in atoms)


def _toggle(obj, atoms, i, j, via_connect=False):
    ex = [b for b in obj.bonds if {id(b.a1), id(b.a2)} == {id(atoms[i]), id(atoms[j])}]
    if ex:
        obj.del_bond(ex[0])
        return f"g.del_bond(g.lookup_bond(atoms[{i}], atoms[{j}]))"
    if via_connect:
        obj.connect(atoms[i], atoms[j])
        return f"g.connect(atoms[{i}], atoms[{j}])"
    obj.append_bond(Bond(atoms[i], atoms[j], btype=BondType.Double))
    return f"g.append_bond(Bond(atoms[{i}], atoms[{j}], btype=BondType.Double))"


def apply_graph_edit(obj, edit, mid=None):
    """one in-place edit (possibly two consecutive operations) -> repro lines.
    ("bond-added"|"bond-deleted", i, j)            toggle one bond
    ("atom-deleted", k)
    ("bond-moved", i, j, k, l)                     del_bond(i-j) then connect(k, l): the number of bonds stays
    ("bond-list-replaced", n, refmask, shift)      connect_like(another graph with the same number of bonds)
    ("bond-types-swapped", a, b)                   the types of bonds a and b of the bond list are exchanged
    ("atom-added+atom-deleted", i, k)              new atom bonded to i, then atom k (one bond) deleted: counts stay
    ("two-bonds-toggled", i, j, k, l)              two toggles without a query in between
    ("two-bonds-toggled-queries-between", ...)     the same with a full round of queries between (mid is called)"""
    atoms = list(obj.atoms)
    lines = ["atoms = list(g.atoms)"]
    kind = edit[0]
    if kind in ("bond-added", "bond-deleted"):
        lines.append(_toggle(obj, atoms, edit[1], edit[2]))
    elif kind == "atom-deleted":
        obj.del_atom(atoms[edit[1]])
        lines.append(f"g.del_atom(atoms[{edit[1]}])")
    elif kind == "bond-moved":
        _, i, j, k, l = edit
        lines.append(_toggle(obj, atoms, i, j))
        lines.append(_toggle(obj, atoms, k, l, via_connect=True))
    elif kind == "bond-list-replaced":
        _, n, refmask, shift = edit
        red = edges_of(n, refmask)
        rbts = [BT_CYCLE[(k + shift) % 4] for k in range(len(red))]
        ref = build("Connectivity", n, red, None, rbts)
        obj.connect_like(ref)
        lines += ["ref = Connectivity()", f"ratoms = [Atom(Element.C) for _ in range({n})]", "for a in ratoms: ref.append_atom(a)"]
        lines += [f"ref.append_bond(Bond(ratoms[{i}], ratoms[{j}], btype=BondType.{bt}))" for (i, j), bt in zip(red, rbts)]
        lines.append("g.connect_like(ref)")
    elif kind == "bond-types-swapped":
        ba, bb = obj.bonds[edit[1]], obj.bonds[edit[2]]
        ba.btype, bb.btype = bb.btype, ba.btype
        lines.append(f"g.bonds[{edit[1]}].btype, g.bonds[{edit[2]}].btype = g.bonds[{edit[2]}].btype, g.bonds[{edit[1]}].btype")
    elif kind == "atom-added+atom-deleted":
        _, i, k = edit
        new = Atom(Element.C, label="new")
        obj.append_atom(new)
        obj.append_bond(Bond(atoms[i], new, btype=BondType.Triple))
        obj.del_atom(atoms[k])
        lines += ["new = Atom(Element.C, label='new'); g.append_atom(new)", f"g.append_bond(Bond(atoms[{i}], new, btype=BondType.Triple))", f"g.del_atom(atoms[{k}])"]
    elif kind in ("two-bonds-toggled", "two-bonds-toggled-queries-between"):
        _, i, j, k, l = edit
        lines.append(_toggle(obj, atoms, i, j))
        if kind.endswith("between"):
            mid()
            lines.append("list(g.yield_bfsd(atoms[0])); [g.is_bond_in_ring(b) for b in g.bonds]; [list(g.connected_atoms(a)) for a in g.atoms]  # a round of queries")
        lines.append(_toggle(obj, atoms, k, l, via_connect=True))
    else:
        raise HarnessError(str(edit))
    return lines


def graph_history_case(ctx, agg, cls_name, n, mask, edit, seed):
    """all queries (fills whatever the object remembers) -> in-place edit -> all queries again, compared with the
    graph the object holds NOW"""
    ed = edges_of(n, mask)
    bts = [BT_CYCLE[(k + seed) % 4] for k in range(len(ed))]
    obj = build(cls_name, n, ed, None, bts)
    check_graph(ctx, Agg(), cls_name, n, ed, bts, ("atom",), obj=obj)  # first round: reported by part G, not here
    def mid():
        cur = graph_of(obj)
        if cur is not None:
            check_graph(ctx, Agg(), cls_name, cur[0], cur[1], None, ("atom",), obj=obj)  # single toggles are reported by their own cases

    try:
        lines = apply_graph_edit(obj, edit, mid)
        line = "; ".join(lines[1:])
    except Exception as e:
        ctx.add_note(f"history_edit_raised[{cls_name}:{edit[0]}:{type(e).__name__}]", 1)
        return
    ctx.count(transitions=1, states=1)
    cur = graph_of(obj)
    if cur is None:
        ctx.add_note("history_object_not_a_simple_graph_after_edit", 1)
        return
    n2, bl2, _ = cur
    hist = {
        "case": {"kind": "graph-history", "cls": cls_name, "n": n, "mask": mask, "edit": list(edit), "seed": seed},
        "repro": repro_build(cls_name, n, ed, None, bts) + ["list(g.yield_bfsd(g.atoms[0])); [g.is_bond_in_ring(b) for b in g.bonds]; [list(g.connected_atoms(a)) for a in g.atoms]  # first round of queries"] + lines,
        "what": f"all queries on bonds {ed}, then {line}",
    }
    check_graph(ctx, agg, cls_name, n2, bl2, None, ("atom", "index"), obj=obj, sfx=f":history[{edit[0]}]", hist=hist)
    ctx.count(evaluations=1, traces=1)
    ctx.nontrivial(("gh", cls_name, n, mask, edit[0]))
    ctx.outcome(("gh", edit[0], n2, len(bl2)))


def graph_edits(n, mask):
    """edits that change the number of bonds or atoms"""
    out = []
    for k, (i, j) in enumerate(pairs(n)):
        out.append(("bond-deleted", i, j) if mask >> k & 1 else ("bond-added", i, j))
    if n >= 2:
        out += [("atom-deleted", k) for k in range(n)]
    return out


def graph_moves(n, mask):
    """every (removed bond, added bond) pair: the number of bonds stays"""
    pr = pairs(n)
    have = [p for k, p in enumerate(pr) if mask >> k & 1]
    free = [p for k, p in enumerate(pr) if not mask >> k & 1]
    return [("bond-moved", i, j, k, l) for (i, j) in have for (k, l) in free]


def graph_edits_extended(n, mask, seed):
    """edits that keep the number of bonds (and atoms), and two consecutive edits"""
    pr = pairs(n)
    m = bin(mask).count("1")
    out = graph_moves(n, mask)
    # the bond list of every other graph with the same number of bonds, through connect_like
    out += [("bond-list-replaced", n, ref, 1 + seed % 3) for ref in range(1 << len(pr)) if ref != mask and bin(ref).count("1") == m and m > 0]
    if m >= 2:
        out.append(("bond-types-swapped", 0, m - 1))
    adj = adjacency(n, edges_of(n, mask))
    out += [("atom-added+atom-deleted", i, k) for k in range(n) if len(adj[k]) == 1 for i in range(n) if i != k]
    for a, (i, j) in enumerate(pr):
        for b, (k, l) in enumerate(pr):
            if a != b:
                if a < b or (mask >> a & 1) != (mask >> b & 1):  # both orders only when one bond goes and one comes
                    out.append(("two-bonds-toggled", i, j, k, l))
                if (mask >> a & 1) != (mask >> b & 1):  # one deleted, one added
                    out.append(("two-bonds-toggled-queries-between", i, j, k, l))
    return out


def run_graph_history_part(ctx, agg, part):
    n, lo, hi, thorough = part["n"], part["lo"], part["hi"], part.get("thorough", False)
    all_cls = ("Connectivity", "Molecule", "ConformerEnsemble")
    for mask in range(lo, hi):
        for edit in graph_edits(n, mask):
            for cls_name in all_cls if n <= 4 else ("Connectivity",):
                graph_history_case(ctx, agg, cls_name, n, mask, edit, ctx.seed)
        if n <= 4:
            for edit in graph_edits_extended(n, mask, ctx.seed):
                for cls_name in all_cls if (n <= 3 or thorough) else ("Connectivity",):
                    if edit[0] == "atom-added+atom-deleted" and cls_name != "Connectivity":
                        continue  # adding an atom to a geometry-carrying object needs coordinates: C05's matter
                    graph_history_case(ctx, agg, cls_name, n, mask, edit, ctx.seed)
        else:
            for edit in graph_moves(n, mask):
                graph_history_case(ctx, agg, "Connectivity", n, mask, edit, ctx.seed)


MATCH_EDITS = ("target-bond-toggled", "target-element-changed-in-place", "pattern-element-changed-in-place", "target-atom-deleted")


def apply_match_edit(tgt, pat, edit, k, bt):
    tatoms, patoms = list(tgt.atoms), list(pat.atoms)
    if edit == "target-bond-toggled":
        if len(tatoms) < 2:
            return None
        i, j = pairs(len(tatoms))[k % len(pairs(len(tatoms)))]
        ex = [b for b in tgt.bonds if {id(b.a1), id(b.a2)} == {id(tatoms[i]), id(tatoms[j])}]
        if ex:
            tgt.del_bond(ex[0])
            return f"t.del_bond(t.lookup_bond(t.atoms[{i}], t.atoms[{j}]))"
        tgt.append_bond(Bond(tatoms[i], tatoms[j], btype=BT[bt]))  # the one bond type of this pair, as everywhere in part M
        return f"t.append_bond(Bond(t.atoms[{i}], t.atoms[{j}], btype=BondType.{bt}))"
    if edit == "target-element-changed-in-place":
        a = tatoms[k % len(tatoms)]
        a.element = Element.N if a.element == Element.C else Element.C
        return f"t.atoms[{k % len(tatoms)}].element = Element.{a.element.name}"
    if edit == "pattern-element-changed-in-place":
        a = patoms[k % len(patoms)]
        a.element = {Element.C: Element.N, Element.N: Element.Unknown, Element.Unknown: Element.C}[a.element]
        return f"p.atoms[{k % len(patoms)}].element = Element.{a.element.name}"
    if edit == "target-atom-deleted":
        if len(tatoms) < 2:
            return None
        tgt.del_atom(tatoms[k % len(tatoms)])
        return f"t.del_atom(t.atoms[{k % len(tatoms)}])"
    raise HarnessError(edit)


def match_history_case(ctx, agg, tg, pg, bt, edit, k, apis):
    """match (all entry points) -> in-place edit of the target or the pattern -> match again on the same objects"""
    tn, ted, tcols, tbts = _graph_args(tg, bt)
    pn, ped, pcols, pbts = _graph_args(pg, bt)
    for cls_name, capis in (("Connectivity", [a for a in apis if a != "ens.get_substr_indices"]), ("ConformerEnsemble", [a for a in apis if a == "ens.get_substr_indices"])):
        if not capis or (cls_name == "ConformerEnsemble" and edit == "target-atom-deleted"):
            continue
        tgt = build(cls_name, tn, ted, tcols, tbts)
        pat = build("Connectivity", pn, ped, pcols, pbts)
        try:
            list(tgt.match(pat))
            list(tgt.get_substr_indices(pat))
        except Exception:
            return  # first-call failures are part M's
        try:
            line = apply_match_edit(tgt, pat, edit, k, bt)
        except Exception as e:
            ctx.add_note(f"history_edit_raised[{cls_name}:{edit}:{type(e).__name__}]", 1)
            continue
        if line is None:
            continue
        ctx.count(transitions=3, states=1)
        tcur, pcur = graph_of(tgt), graph_of(pat)
        if tcur is None or pcur is None or "?" in tcur[2] or "?" in pcur[2]:
            ctx.add_note("history_object_not_a_simple_graph_after_edit", 1)
            continue
        tn2, tbl2, tcols2 = tcur
        pn2, pbl2, pcols2 = pcur
        tadj, padj = adjacency(tn2, tbl2), adjacency(pn2, pbl2)
        expected = embeddings(tn2, tadj, tcols2, pn2, padj, pcols2)
        mattrs = {"bonds": bt, "pattern": "with-Unknown" if "X" in pcols2 else "plain"}
        for api in capis:
            opname = f"{OPNAME[api]}:history[{edit}]"
            agg.tick(opname, mattrs)

            def viol(symptom, what, api=api, opname=opname):
                stale = embeddings(tn, adjacency(tn, ted), tcols, pn, adjacency(pn, ped), pcols) if tn2 == tn else None
                case = {"kind": "match-history", "op": opname, "symptom": symptom, "target": [tn, tg[1], list(tcols)], "pattern": [pn, pg[1], list(pcols)], "bt": bt, "api": api, "edit": edit, "k": k}
                rep = repro_build(cls_name, tn, ted, tcols, tbts) + ["t = g"] + repro_build("Connectivity", pn, ped, pcols, pbts)[1:] + ["p = g"]
                rep += ["list(t.match(p)); list(t.get_substr_indices(p))  # first round", line]
                rep.append("print([[t.atoms.index(m[a]) for a in p.atoms] for m in t.match(p)])" if api == "match" else "print(list(t.get_substr_indices(p)))")
                agg.fail(opname, symptom, mattrs, f"{what} [second call on the same objects after {line}; before the edit: target {''.join(tcols)} bonds {ted}, pattern {''.join(pcols)} bonds {ped}, {len(stale) if stale is not None else '?'} embeddings; all bonds {bt}]", case, "\n".join(rep))

            _compare_match(ctx, viol, tgt, pat, api, opname, tn2, tadj, tcols2, pn2, padj, pcols2, expected)
            ctx.nontrivial(("mh", edit, api, tn, pn, len(expected)))


def run_match_history_part(ctx, agg, part):
    if part.get("own"):
        # every labelling of the 3-atom patterns against a target that contains it
        for pg in part["patterns"]:
            for edit in MATCH_EDITS:
                match_history_case(ctx, agg, own_targets(pg, ctx.seed)[0], pg, part["bt"], edit, part["ks"][0], ("match", "get_substr_indices", "ens.get_substr_indices"))
        return
    for tg in part["targets"]:
        for pg in part["patterns"]:
            for edit in MATCH_EDITS:
                for k in part["ks"]:
                    match_history_case(ctx, agg, tg, pg, part["bt"], edit, k, ("match", "get_substr_indices", "ens.get_substr_indices"))


def own_targets(pg, seed):
    """two targets in which the pattern certainly embeds: the pattern itself (Unknown -> C/N) under a vertex
    permutation, and the same with one more atom attached"""
    n, mask, cols = pg
    tcols = tuple(("C" if (i + seed) % 2 else "N") if c == "X" else c for i, c in enumerate(cols))
    perm = tuple(reversed(range(n))) if seed % 2 == 0 else tuple((i + 1) % n for i in range(n))
    e2, c2 = relabel(n, edges_of(n, mask), tcols, perm)
    t1 = (n, mask_of(n, e2), c2)
    t2 = (n + 1, mask_of(n + 1, e2 + [(seed % n, n)]), c2 + ("C",))
    return [t1, t2]


def run_labelled_gsi_part(ctx, agg, part):
    """get_substr_indices returns the target indices IN THE ORDER OF pattern.atoms: every atom order of every pattern"""
    for pg in part["patterns"]:
        for tg in own_targets(pg, ctx.seed):
            for bt in ("Single", "Double", "Aromatic"):
                ne, ninj = check_match(ctx, agg, tg, pg, bt, ("get_substr_indices", "mol.get_substr_indices", "ens.get_substr_indices"))
                ctx.count(states=1)
                if ne == 0:
                    raise HarnessError(f"own target {tg} does not contain pattern {pg}")
            ctx.nontrivial(("lg", pg[0], pg[1], "".join(pg[2])))


def seed_rep(g, seed):
    n, mask, cols = g
    e2, c2 = relabel(n, edges_of(n, mask), cols, perm_for_seed(n, seed))
    return (n, mask_of(n, e2), c2)


# =================================================================================================
def run(ctx):
    seed = ctx.seed
    thorough = ctx.thorough
    nmax = 6 if thorough else 5
    pmax = 4 if thorough else 3
    ctx.rule = (
        "part G: every labelled simple graph on 1..nmax atoms, each as 5 real molli objects (three bond-list layouts, "
        "Connectivity/Structure/Molecule/ConformerEnsemble), every start atom, every neighbour as direction, every bond, every atom; "
        "a graph is non-trivial when it has at least one bond. part M: (target, pattern) pairs through match / get_substr_indices; a "
        "target is non-trivial when for some pattern the induced embeddings are neither none nor all injective maps. "
        "part H (history): on the SAME object, all queries, then one in-place edit (bond added / deleted, atom deleted; for matching: target bond toggled, "
        "target or pattern element changed in place, target atom deleted), then all queries again, compared with the graph read back from the object. "
        "The seed only picks bond-list order/orientation/bond types and the representative of an isomorphism class."
    )
    ctx.assumptions += [
        "directional traversal: the property fixes the SET of yielded atoms (reachable through the neighbour without passing the start); "
        "each atom once; a distance label is accepted when it is either 1 + distance from the direction atom avoiding the start or the "
        "true distance in the whole graph; the order of directional traversal is not constrained",
        "non-directional traversal does not yield the start atom ('every other atom')",
        "breadth-first order: non-decreasing true distance without a direction; with a direction non-decreasing distance under either reading (through the neighbour avoiding "
        "the start, or true distance). The sequences of yield_bfs and yield_bfsd are not required to coincide (two breadth-first orders may differ)",
        "two traversal generators of one object may be alive at the same time (and other queries may run between the next() calls of a traversal): each yields what it yields alone",
        "generators are consumed with list(...) first and inspected afterwards; the dicts / lists yielded by match / get_substr_indices must be distinct objects",
        "bonded_valence is compared with the sum of Bond.order over the object's bond list (every BondType member, FractionalOrder with f_order in 0.25/0.5/1.5/2.5: exactly representable)",
        "graph-theoretic answers do not depend on element labels: the same oracles run with H, F, Cl, Br, I and Unknown atoms on nodes of every degree",
        "embeddings are compared as sets: a repeated yield of the same embedding is not counted as a violation; automorphic images are distinct embeddings",
        "matching: Unknown appears only in patterns (the text does not say what an Unknown target atom matches); one bond type on all bonds of "
        "both sides (Single everywhere; Double and Aromatic on the class representatives), since the text does not speak about bond-type compatibility",
        "the reference adjacency is read from the object's own bond list by atom identity and must equal the graph that was requested (else harness error)",
        "attributes in matching (the property text only names elements and bonds; for everything else the docstrings are silent and the behaviour of the reviewed tree is taken as the rule): "
        "pattern element Unknown matches any element, a target Unknown matches only a pattern Unknown; pattern isotope None / stereo Unknown match any, otherwise equal; "
        "atom type, label, geometry, formal charge and spin never affect matching; pattern bond type Unknown matches any bond, Single/Double/Triple match a target bond type "
        "whose value is not smaller, Aromatic/Amide match only themselves, NotConnected nothing; pattern bond stereo Unknown / label None match any, otherwise equal; f_order never "
        "matters; pattern bond types for which _edge_match raises NotImplementedError by design (Dummy, Quadruple..Sextuple, Ligand, FractionalOrder, H_Donor, H_Acceptor) are not generated",
        "get_substr_indices returns positions in the atom list of the object that was queried (Substructure / Conformer views, re-parented atoms included)",
        "history: the reference is the graph (atoms, bond list, elements) read back from the object after the edit; an edit that raises is counted in the notes and the sequence dropped",
    ]

    # ---- part G --------------------------------------------------------------------------------
    parts = []
    for n in range(1, nmax + 1):
        total = 1 << len(pairs(n))
        step = max(1, total // (64 if n == 6 else (16 if n == 5 else 1)))
        for lo in range(0, total, step):
            parts.append({"n": n, "lo": lo, "hi": min(total, lo + step)})
    agg = Agg()
    nproc = int(os.environ.get("VERIF_NPROC", "0")) or min(16 if thorough else 8, os.cpu_count() or 1)
    # debugging aid: VERIF_C15_ONLY=G | M | M:<substring of a block name>; such a run is reported as not exhaustive
    only = os.environ.get("VERIF_C15_ONLY", "")
    if only:
        ctx.cap_hit(f"partial run requested by VERIF_C15_ONLY={only}")
    if only and not only.startswith("G"):
        parts = parts[:1]
    run_forked(ctx, agg, [(f"graphs n={p['n']} [{p['lo']},{p['hi']})", run_graph_part, p) for p in parts] + [("deep shapes", run_deep_part, {})], nproc, 800)
    eparts = []
    for n in range(2, (5 if thorough else 4) + 1):
        total = 1 << len(pairs(n))
        step = max(1, total // (32 if n == 5 else (8 if n == 4 else 1)))
        eparts += [{"n": n, "lo": lo, "hi": min(total, lo + step)} for lo in range(0, total, step)]
    eparts[0]["deep"] = True
    if not only:
        run_forked(ctx, agg, [(f"elements n={p['n']} [{p['lo']},{p['hi']})", run_elements_part, p) for p in eparts] + [("bond types", run_bondtypes_part, {})], nproc, 800)
    ctx.bound["G_element_labellings"] = f"every graph with >= 1 bond on 2..{5 if thorough else 4} atoms x assignments of {SPECIAL_ELEMENTS} to every subset of nodes (H, Cl, Unknown; <= 4 atoms) or to each single node and to all nodes, plus two mixed assignments; deep shapes with one such atom at 3 positions and alternating"
    ctx.bound["G_bond_types"] = f"{[s[0] for s in BOND_SHAPES]} x every BondType member x f_order in {F_ORDERS} on each single bond and on all bonds"
    ctx.bound["G_deep_shapes"] = [f"{name} ({n} atoms)" for name, n, _ in deep_shapes()]
    ctx.bound["G_atoms_max"] = nmax
    ctx.bound["G_graphs"] = sum(1 << len(pairs(n)) for n in range(1, nmax + 1))

    # ---- part M --------------------------------------------------------------------------------
    T_lab = {n: coloured_graphs(n, "CN") for n in range(1, 6)}
    T_can = {n: [seed_rep(g, seed) for g in canonical_reps(n, "CN")] for n in range(1, 6)}
    P_lab = {n: coloured_graphs(n, "CNX", connected_only=True) for n in range(1, pmax + 1)}
    P_can = {n: [seed_rep(g, seed) for g in canonical_reps(n, "CNX", connected_only=True)] for n in range(1, pmax + 1)}
    cat = lambda d, ns: [g for n in ns for g in d[n]]
    ctx.note("targets_labelled", {n: len(v) for n, v in T_lab.items()})
    ctx.note("targets_up_to_isomorphism", {n: len(v) for n, v in T_can.items()})
    ctx.note("patterns_labelled", {n: len(v) for n, v in P_lab.items()})
    ctx.note("patterns_up_to_isomorphism", {n: len(v) for n, v in P_can.items()})

    blocks = []  # (name, targets, patterns, bond type, apis)
    can_all_T = cat(T_can, range(1, 6))
    if thorough:
        # the full product the plan names for patterns <= 3 ...
        blocks.append(("labelled targets <=5 x labelled patterns <=3 [match]", cat(T_lab, range(1, 6)), cat(P_lab, range(1, 4)), "Single", ("match",)))
        # ... and 4-atom patterns with one side labelled and one representative per isomorphism class on the other side
        # (the labelled x labelled product with 4-atom patterns is 10^8 calls of ~1 ms)
        blocks.append(("labelled targets <=4 x class-representative patterns =4 [match]", cat(T_lab, range(1, 5)), P_can[4], "Single", ("match",)))
        blocks.append(("class-representative targets <=4 x labelled patterns =4 [match]", cat(T_can, range(1, 5)), P_lab[4], "Single", ("match",)))
        blocks.append(("class-representative targets =5 x class-representative patterns =4 [match]", T_can[5], P_can[4], "Single", ("match",)))
        mixed = tuple(("CNCNN" * 2)[seed % 5 : seed % 5 + 5])
        blocks.append(("all labelled 5-atom graphs with one mixed element assignment x class-representative patterns =4 [match]", [(5, m, mixed) for m in range(1 << 10)], P_can[4], "Single", ("match",)))
        blocks.append(("labelled targets <=4 x labelled patterns <=3 [get_substr_indices]", cat(T_lab, range(1, 5)), cat(P_lab, range(1, 4)), "Single", ("get_substr_indices",)))
        blocks.append(("class-representative targets <=5 x labelled patterns <=3 [get_substr_indices x2]", can_all_T, cat(P_lab, range(1, 4)), "Single", ("get_substr_indices", "ens.get_substr_indices")))
        blocks.append(("class-representative targets <=5 x class-representative patterns =4 [get_substr_indices x2]", can_all_T, P_can[4], "Single", ("get_substr_indices", "ens.get_substr_indices")))
        blocks.append(("class-representative targets <=4 x class-representative patterns =4 [all three entry points, bonds=Double]", cat(T_can, range(1, 5)), P_can[4], "Double", ("match", "get_substr_indices", "ens.get_substr_indices")))
        dbl_T = can_all_T
    else:
        # the full labelled x labelled product costs ~1 ms per call (networkx conversion inside match): the quick tier keeps it up
        # to 4-atom targets and takes 5-atom targets with one side labelled and the other one representative per class
        blocks.append(("labelled targets <=4 x labelled patterns <=3 [match]", cat(T_lab, range(1, 5)), cat(P_lab, range(1, 4)), "Single", ("match",)))
        blocks.append(("class-representative targets =5 x class-representative patterns <=3 [match]", T_can[5], cat(P_can, range(1, 4)), "Single", ("match",)))
        mixed = tuple(("CNCNN" * 2)[seed % 5 : seed % 5 + 5])
        skel5 = [(5, m, mixed) for m in range(1 << 10)]
        # (quick budget) labelled 5-atom targets meet the class representatives without the Unknown wildcard; wildcard patterns meet them through the class-representative block above
        blocks.append(("all labelled 5-atom graphs with one mixed element assignment x class-representative patterns <=3 without Unknown [match]", skel5, [g for g in cat(P_can, range(1, 4)) if "X" not in g[2]], "Single", ("match",)))
        # get_substr_indices: every labelling of every pattern runs in its own block (run_labelled_gsi_part) and over views (part V)
        blocks.append(("class-representative targets <=4 + every 4th of =5 x class-representative patterns <=3 [get_substr_indices]", cat(T_can, range(1, 5)) + T_can[5][seed % 4 :: 4], cat(P_can, range(1, 4)), "Single", ("get_substr_indices",)))
        blocks.append(("class-representative targets <=4 x class-representative patterns <=3 [ConformerEnsemble.get_substr_indices]", cat(T_can, range(1, 5)), cat(P_can, range(1, 4)), "Single", ("ens.get_substr_indices",)))
        dbl_T = cat(T_can, range(1, 4))
    for bt in ("Double", "Aromatic"):
        blocks.append((f"class-representative targets <={dbl_T[-1][0]} x class-representative patterns <=3 [all three entry points, bonds={bt}]", dbl_T, cat(P_can, range(1, 4)), bt, ("match", "get_substr_indices", "ens.get_substr_indices")))

    if only.startswith("G") or only.startswith("H"):
        blocks = blocks[-1:]
    elif only.startswith("M:"):
        blocks = [b for b in blocks if only[2:] in b[0]]
    parts = []
    sizes = {}
    for name, tg, pt, bt, apis in blocks:
        sizes[name] = len(tg) * len(pt) * len(apis)
        # bigger targets are slower: interleave so that every chunk gets a mix
        k = max(1, min(len(tg), (len(tg) * len(pt) * len(apis)) // 4000 + 1))
        for i in range(k):
            sub = tg[i::k]
            if sub:
                parts.append({"targets": sub, "patterns": pt, "bt": bt, "apis": apis})
    ctx.bound["M_blocks_calls"] = sizes
    ctx.bound["M_pattern_atoms_max"] = pmax
    run_forked(ctx, agg, [(f"matching part {i}", run_match_part, p) for i, p in enumerate(parts)], nproc, 800)

    # every labelling (atom order) of every connected pattern <= 3 atoms, and every labelled 4-atom skeleton with 3 element
    # assignments, through get_substr_indices of Connectivity, Molecule and ConformerEnsemble against targets that contain it
    lab = cat(P_lab, range(1, 4))
    if 4 in P_lab:
        lab4 = P_lab[4]
    else:
        lab4 = coloured_graphs(4, "CNX", connected_only=True)
    if not thorough:
        keep = {tuple("CCCC"), tuple(("CNXC" * 2)[seed % 4 : seed % 4 + 4]), tuple(("NNCX" * 2)[seed % 4 : seed % 4 + 4])}
        lab4 = [g for g in lab4 if g[2] in keep]
    lab = lab + lab4
    ctx.bound["M_labelled_patterns_through_get_substr_indices_of_3_classes"] = len(lab)
    if not only:
        run_forked(ctx, agg, [(f"labelled patterns gsi {i}", run_labelled_gsi_part, {"patterns": lab[i::16]}) for i in range(16)], nproc, 800)

    # ---- part H : history dimension -------------------------------------------------------------
    hn = 5 if thorough else 4
    hparts = []
    for n in range(1, hn + 1):
        total = 1 << len(pairs(n))
        step = max(1, total // (64 if n == 5 else (8 if n == 4 else 1)))
        hparts += [{"n": n, "lo": lo, "hi": min(total, lo + step), "thorough": thorough} for lo in range(0, total, step)]
    hP = cat(P_can, range(1, 4))
    ks = (seed % 3,)
    if thorough:
        hT = cat(T_can, range(1, 5))
        mh = [{"targets": hT[i::16], "patterns": hP, "bt": "Single", "ks": ks} for i in range(16)]
        mh += [{"targets": T_can[5][i::16], "patterns": cat(P_can, range(1, 3)), "bt": "Single", "ks": ks} for i in range(16)]
    else:
        mh = [{"targets": cat(T_can, range(1, 4))[i::4], "patterns": hP, "bt": "Single", "ks": ks} for i in range(4)]
        mh += [{"targets": T_can[4][seed % 2 :: 2][i::4], "patterns": cat(P_can, range(1, 3)), "bt": "Single", "ks": ks} for i in range(4)]
    mh.append({"targets": cat(T_can, range(1, 4)), "patterns": cat(P_can, range(1, 3)), "bt": "Aromatic", "ks": ks})
    mh += [{"own": True, "patterns": P_lab[3][i::4], "bt": "Single", "ks": ks} for i in range(4)]
    if not only or only.startswith("H"):
        run_forked(ctx, agg, [(f"graph history n={p['n']} [{p['lo']},{p['hi']})", run_graph_history_part, p) for p in hparts], nproc, 800)
        run_forked(ctx, agg, [(f"matching history part {i}", run_match_history_part, p) for i, p in enumerate(mh)], nproc, 800)
    ctx.bound["H_graph_atoms_max"] = hn
    ctx.bound["H_graph_edits"] = (
        "every single bond toggled (append_bond / del_bond), every atom deleted; every bond MOVED (del_bond + connect, every (removed, added) pair); the bond list "
        "replaced through connect_like by that of every other graph with the same number of bonds; two bond types swapped; atom+bond added and a one-bond atom "
        "deleted; every ordered pair of two toggles, with and without a round of queries between; on Connectivity, Molecule, ConformerEnsemble "
        "(quick: 4-atom graphs with the count-preserving edits on Connectivity only; 5 atoms: toggles, deletions and moves on Connectivity)"
    )
    ctx.bound["H_match_edits"] = list(MATCH_EDITS)
    conseq = list(CONSEQUENTIAL) + [(f"{d}:history[{e}]", f"{u}:history[{e}]") for d, u in CONSEQUENTIAL for e in MATCH_EDITS]
    # ---- part A (attributes on targets and patterns independently) and part V (which atom list an index refers to)
    from mc.props import c15_attr

    if not only:
        run_forked(ctx, agg, [(f"attributes part {i}", c15_attr.attr_job, {"seed": seed, "part": i, "nparts": 8}) for i in range(8)], nproc, 800)
        run_forked(ctx, agg, [("views", c15_attr.view_job, {"seed": seed, "thorough": thorough})], nproc, 800)
    from mc.props import c15_interleave

    if not only:
        run_forked(ctx, agg, [(f"concurrent traversals part {i}", c15_interleave.interleave_job, {"seed": seed, "part": i, "nparts": 8}) for i in range(8)], nproc, 800)
    ctx.bound["I_concurrent_traversals"] = f"{len(c15_interleave.FAMILY)} graphs x (Connectivity, ConformerEnsemble): every ordered pair of traversal generators in lockstep and first-k/all/rest for k = 0..n; every generator with is_bond_in_ring / connected_atoms / get_substr_indices between its next() calls; loops capped at n+5 items and 5 s"
    ctx.bound["A_attributes"] = "atom: element (incl. Unknown on either side), isotope, stereo, atype (all members), label, geom (all members), formal_charge, formal_spin; bond: btype (all members on the target x 7 implemented pattern types), stereo, label, f_order; one attribute at a time, on the first atom/bond and on all, target and pattern independently; 3 base pairs; 4 entry points"
    ctx.bound["V_queried_objects"] = "Molecule, Substructure.heavy, Substructure(unordered index lists), Conformer, ConformerEnsemble, objects whose atoms were put into a later container, containers built from atoms of an earlier one, patterns built from the target's own atoms; 3 parents with interleaved hydrogens x 6 patterns"

    from mc.core import load_known

    agg.emit(ctx, consequential=conseq, known=set(load_known(ctx.pid)), depends=DEPENDS)

    # ---- a few cases written out (run in this process, deterministic) -----------------------------
    sc = ctx.sub(10_000)
    for n, ed in [(3, [(0, 1), (1, 2)]), (4, [(0, 1), (1, 2), (0, 2), (2, 3)]), (5, [(0, 1), (1, 2), (2, 3), (0, 3), (3, 4)])]:
        obs = check_graph(sc, Agg(), "Connectivity", n, ed, None, ("atom",))
        ctx.sample({"kind": "graph", "n": n, "bonds": ed, "observed": [o for o in obs if o[0] in ("bfsd", "ring", "bfsd-dir")][:12]})
    for tg, pg in [((4, mask_of(4, [(0, 1), (1, 2), (2, 3)]), ("C", "N", "C", "C")), (2, 1, ("X", "C"))), ((3, 7, ("C", "C", "N")), (3, 3, ("C", "C", "X")))]:
        tn, ted, tcols, _ = _graph_args(tg, "Single")
        pn, ped, pcols, _ = _graph_args(pg, "Single")
        t = build("Connectivity", tn, ted, tcols)
        p = build("Connectivity", pn, ped, pcols)
        ctx.sample({"kind": "match", "target": {"elements": tcols, "bonds": ted}, "pattern": {"elements": pcols, "bonds": ped}, "get_substr_indices": [list(x) for x in t.get_substr_indices(p)], "reference": sorted(embeddings(tn, adjacency(tn, ted), tcols, pn, adjacency(pn, ped), pcols))})


def replay(ctx, case):
    agg = Agg()
    if case["kind"] == "interleave":
        from mc.props import c15_interleave

        c15_interleave.replay_interleave(ctx, agg, case)
    elif case["kind"] in ("attr", "view"):
        from mc.props import c15_attr

        (c15_attr.replay_attr if case["kind"] == "attr" else c15_attr.replay_view)(ctx, agg, case)
    elif case["kind"] == "graph-history":
        graph_history_case(ctx, agg, case["cls"], case["n"], case["mask"], tuple(case["edit"]), case["seed"])
    elif case["kind"] == "match-history":
        tn, tm, tc = case["target"]
        pn, pm, pc = case["pattern"]
        match_history_case(ctx, agg, (tn, tm, tuple(tc)), (pn, pm, tuple(pc)), case["bt"], case["edit"], case["k"], (case["api"],))
    elif case["kind"] == "graph":
        check_graph(ctx, agg, case["cls"], case["n"], [tuple(x) for x in case["bond_list"]], case["btypes"], tuple(case["forms"]), cols=case.get("cols"), bonds_class=case.get("bonds_class", "common"))
    else:
        tn, tm, tc = case["target"]
        pn, pm, pc = case["pattern"]
        check_match(ctx, agg, (tn, tm, tuple(tc)), (pn, pm, tuple(pc)), case["bt"], (case["api"],))
    agg.emit(ctx, replay_of=case)
