"""
crashx - crash-point enumeration on a recorded write history.

`Recorder` wraps every stream that molli's UKVFile opens on one path (run-time seam: UKVFile.open
is wrapped by the harness, nothing in /repo changes) and logs the file-mutating calls in issue
order:  ("w", offset, bytes)  and  ("t", size).

Crash model: the process dies; the file holds the effect of a prefix of that log, the last write
possibly cut at any byte.  `images(f0, log)` yields every such file image (deduplicated), with a
description of where the cut falls.
"""
from __future__ import annotations

import os
from contextlib import contextmanager


class RecStream:
    def __init__(self, inner, log, on_event=None):
        self._inner = inner
        self._log = log
        self._size = os.fstat(inner.fileno()).st_size

    def write(self, b):
        off = self._inner.tell()
        b = bytes(b)
        self._log.append(("w", off, b, self._size))
        n = self._inner.write(b)
        self._size = max(self._size, off + len(b))
        return n

    def truncate(self, size=None):
        pos = self._inner.tell() if size is None else size
        self._log.append(("t", pos, b"", self._size))
        self._size = pos
        return self._inner.truncate(size)

    def __getattr__(self, name):
        return getattr(self._inner, name)

    def __enter__(self):
        return self

    def __exit__(self, *a):
        self._inner.close()


@contextmanager
def recording(path, log):
    """While active, every binary stream opened through pathlib.Path.open on `path` (that is how
    UKVFile opens its file) is recorded into `log` from the moment it exists - including what
    UKVFile.open itself does to the file while mapping it."""
    import pathlib

    path = os.path.realpath(str(path))
    orig = pathlib.Path.open

    def open_(self, mode="r", *a, **k):
        f = orig(self, mode, *a, **k)
        if "b" in mode and os.path.realpath(str(self)) == path:
            return RecStream(f, log)
        return f

    pathlib.Path.open = open_
    try:
        yield log
    finally:
        pathlib.Path.open = orig


def apply_ops(f0: bytes, ops, k: int, j: int = 0) -> bytes:
    """file after the first k ops completed and the first j bytes of op k (a write) landed."""
    buf = bytearray(f0)
    todo = list(ops[:k])
    if j and k < len(ops):
        kind, off, data, _ = ops[k]
        todo.append((kind, off, data[:j], None))
    for kind, off, data, _ in todo:
        if kind == "t":
            if off < len(buf):
                del buf[off:]
            else:
                buf.extend(b"\0" * (off - len(buf)))
        else:
            if off > len(buf):
                buf.extend(b"\0" * (off - len(buf)))
            buf[off : off + len(data)] = data
    return bytes(buf)


def images(f0: bytes, ops, stride_above=None):
    """every crash image: (image bytes, (k, j)) with k = completed ops, j = bytes of op k landed.
    stride_above=N: inside a write longer than N bytes only the first and last 64 cut positions
    and every 4099th in between are generated (stated as a reduced bound by the caller)."""
    import hashlib

    seen = set()
    for k in range(len(ops) + 1):
        base = apply_ops(f0, ops, k, 0)
        d = hashlib.sha1(base).digest()
        if d not in seen:
            seen.add(d)
            yield base, (k, 0)
        if k < len(ops) and ops[k][0] == "w":
            _, off, data, _sz = ops[k]
            cuts = range(1, len(data))
            if stride_above is not None and len(data) > stride_above:
                cuts = sorted(set(range(1, 65)) | set(range(len(data) - 64, len(data))) | set(range(65, len(data) - 64, 4099)))
            for j in cuts:
                buf = bytearray(base)
                if off > len(buf):
                    buf.extend(b"\0" * (off - len(buf)))
                buf[off : off + j] = data[:j]
                img = bytes(buf)
                d = hashlib.sha1(img).digest()
                if d not in seen:
                    seen.add(d)
                    yield img, (k, j)


def non_append_writes(ops):
    """writes that do not land exactly at the current end of file (in-place updates / holes)."""
    return [(i, o) for i, o in enumerate(ops) if o[0] == "w" and o[1] != o[3]]


def extending_truncates(ops):
    """truncate calls that GROW the file (space reserved before it is written): the reserved
    region reads as zeros until the writes land, which a crash exposes"""
    return [(i, o) for i, o in enumerate(ops) if o[0] == "t" and o[1] > o[3]]
