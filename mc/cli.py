"""./check <ID> [--tier quick|thorough] [--replay path]"""
from __future__ import annotations

import argparse
import atexit
import importlib
import json
import os
import shutil
import sys
import tempfile
import time
import traceback
from pathlib import Path


_SCRATCHES: list = []


def _mk_scratch(pid: str) -> Path:
    base = None
    shm = Path("/dev/shm")
    if shm.is_dir() and os.access(shm, os.W_OK):
        base = shm
    d = Path(tempfile.mkdtemp(prefix=f"molli-verif-{pid}-", dir=str(base) if base else None))
    return d


def main(argv=None) -> int:
    ap = argparse.ArgumentParser()
    ap.add_argument("pid")
    ap.add_argument("--tier", default=os.environ.get("VERIF_TIER") or "quick", choices=["quick", "thorough"])
    ap.add_argument("--replay", default=None)
    ap.add_argument("--budget", type=float, default=None, help="wall-clock cap in seconds (reported as a cap if hit)")
    args = ap.parse_args(argv)
    pid = args.pid.upper()
    try:
        seed = int(os.environ.get("VERIF_SEED", "0") or 0)
    except ValueError:
        seed = 0

    scratch = _mk_scratch(pid)
    owner = os.getpid()

    def _cleanup():
        if os.getpid() == owner:
            shutil.rmtree(scratch, ignore_errors=True)

    atexit.register(_cleanup)
    _SCRATCHES.append(scratch)
    home = scratch / "home"
    home.mkdir()
    os.environ["MOLLI_HOME"] = str(home)
    for k in ("MOLLI_DATA_DIR", "MOLLI_BACKUP_DIR", "MOLLI_SCRATCH_DIR", "MOLLI_SHARED_DIR"):
        os.environ.pop(k, None)
    os.environ.setdefault("MOLLI_VERIF", "1")
    repo = os.environ.get("VERIF_REPO", "/repo")
    sys.path.insert(0, repo)

    from mc import core

    ctx = core.Ctx(pid, args.tier, seed, scratch=scratch)
    budget = args.budget or float(os.environ.get("VERIF_BUDGET_S", "0") or 0)
    if budget:
        ctx.deadline = time.time() + budget
    try:
        mod = importlib.import_module(f"mc.props.{pid.lower()}")
    except ModuleNotFoundError as e:
        print(f"HARNESS-ERROR property={pid} no such check: {e}")
        return 2
    ctx.level = getattr(mod, "LEVEL", "model_checking")

    try:
        import molli  # noqa: F401  (after MOLLI_HOME is set)

        mfile = Path(molli.__file__).resolve()
        if not str(mfile).startswith(str(Path(repo).resolve())):
            print(f"HARNESS-ERROR property={pid} molli imported from {mfile}, expected under {repo}")
            return 2
    except Exception:
        # the tree under test does not even import: that breaks every property
        traceback.print_exc()
        print(f"HARNESS-ERROR property={pid} molli failed to import from {repo}")
        return 2

    if args.replay:
        art = json.loads(Path(args.replay).read_text())
        sigs = []
        for _ in range(2):
            c = core.Ctx(pid, args.tier, art.get("seed", seed), scratch=scratch / f"replay{_}")
            c.scratch.mkdir(parents=True, exist_ok=True)
            mod.replay(c, art["case"])
            sigs.append(sorted(c.violations))
        if sigs[0] != sigs[1]:
            print(f"HARNESS-ERROR property={pid} replay is not deterministic: {sigs}")
            return 2
        known = core.load_known(pid)
        if art["signature"] in sigs[0]:
            if art["signature"] in known:
                print(f"KNOWN-FINDING: property={pid} {known[art['signature']].get('what','')} [sig={art['signature']}]")
                return 0
            print(f"VIOLATION property={pid} replay={args.replay} :: {art['signature']} (reproduced twice)")
            return 1
        print(f"[{pid}] replay: signature {art['signature']!r} not reproduced; observed {sigs[0]}")
        return 0

    try:
        mod.run(ctx)
    except core.HarnessError as e:
        print(f"HARNESS-ERROR property={pid} {e}")
        return 2
    except Exception:
        traceback.print_exc()
        print(f"HARNESS-ERROR property={pid} unexpected exception in the harness")
        return 2
    return core.finish(ctx, write_evidence=os.environ.get("VERIF_NOEVIDENCE") != "1")


if __name__ == "__main__":
    rc = main()
    sys.stdout.flush()
    sys.stderr.flush()
    # Abandoned collection backends register atexit flushes that would only print noise:
    # the scratch directory is removed explicitly and the interpreter leaves without them.
    for d in _SCRATCHES:
        shutil.rmtree(d, ignore_errors=True)
    os._exit(rc)
