#!/bin/bash
# Nothing to build ahead of time: every check imports /repo's working tree directly and the
# C19 shim library is compiled by the check itself.  Only verifies the tool chain is present.
set -e
cd "$(dirname "$0")"
/venv/bin/python -c "import sys, numpy, msgpack, attrs, fasteners, networkx; assert sys.version_info[:2] >= (3, 10)"
command -v g++ >/dev/null
mkdir -p evidence replay
echo "setup ok"
