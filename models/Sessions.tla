------------------------------ MODULE Sessions ------------------------------
(* Session-level model of molli's library protocol: N processes, each running a fixed
   program of reading ("R") / writing ("W") sessions on one library guarded by a
   reader/writer lock.  One step = a process acquires the lock for its next session, or
   releases it.  `hist` records every step, so each terminal state carries one complete
   behaviour; the behaviours are replayed against the implementation by mc/tlcx.py.     *)
EXTENDS Naturals, Sequences, FiniteSets

CONSTANTS NProc, Menu   \* Menu: the set of programs (sequences over {"R","W"}) a process may run

VARIABLES prog, pc, inside, hist

Procs == 1..NProc

Readers == {p \in Procs : inside[p] = "R"}
Writers == {p \in Procs : inside[p] = "W"}

Init == /\ prog \in [Procs -> Menu]
        /\ pc = [p \in Procs |-> 1]
        /\ inside = [p \in Procs |-> "-"]
        /\ hist = << >>

Acquire(p) == /\ inside[p] = "-"
              /\ pc[p] <= Len(prog[p])
              /\ LET k == prog[p][pc[p]] IN
                   /\ IF k = "W" THEN Readers = {} /\ Writers = {} ELSE Writers = {}
                   /\ inside' = [inside EXCEPT ![p] = k]
                   /\ hist' = Append(hist, <<p, "acq", k>>)
              /\ UNCHANGED <<prog, pc>>

Release(p) == /\ inside[p] # "-"
              /\ inside' = [inside EXCEPT ![p] = "-"]
              /\ pc' = [pc EXCEPT ![p] = @ + 1]
              /\ hist' = Append(hist, <<p, "rel", inside[p]>>)
              /\ UNCHANGED prog

Done == \A p \in Procs : pc[p] > Len(prog[p]) /\ inside[p] = "-"

Next == (\E p \in Procs : Acquire(p) \/ Release(p)) \/ (Done /\ UNCHANGED <<prog, pc, inside, hist>>)

Spec == Init /\ [][Next]_<<prog, pc, inside, hist>>

\* the reader/writer discipline (what C04's monitor checks on the implementation)
Exclusion == /\ Cardinality(Writers) <= 1
             /\ (Writers # {} => Readers = {})
=============================================================================
